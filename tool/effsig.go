package main

import (
	"fmt"
	"go/token"
	"regexp"
	"sort"
	"strings"

	"golang.org/x/tools/go/ssa"
)

// ------------------------------------------------------------------ effect signatures of the builtins

var reParamK = regexp.MustCompile(`funcExpr\.Param\[(\d+|\*)\]`)

// an element of a sub-slice of the argument list (`for _, a := range funcExpr.Param[1:]`) is "some argument"
var reParamSub = regexp.MustCompile(`funcExpr\.Param\[[^\]]*:[^\]]*\]\[(\d+|\*)\]`)

// substStack: while a helper is being looked into, its parameter names stand for the caller's argument paths
var substStack []map[string]string

// resolvedPath: path(v), except that one result of a multi-result in-module helper (a validation phase returning
// (key, …, err)) is spelled as what the helper returns there on its non-zero returns, in the caller's terms.
var resolvedPathBusy = map[ssa.Value]bool{}

func resolvedPath(v ssa.Value) string {
	ex, ok := v.(*ssa.Extract)
	if !ok {
		return path(v)
	}
	if resolvedPathBusy[v] {
		return path(v) // mutually recursive helpers
	}
	resolvedPathBusy[v] = true
	defer delete(resolvedPathBusy, v)
	call, ok := ex.Tuple.(*ssa.Call)
	if !ok {
		return path(v)
	}
	h := call.Call.StaticCallee()
	if h == nil || !inModule(h) || len(h.Blocks) == 0 || h.Signature.Results().Len() < 2 || h.Signature.Recv() != nil {
		return path(v)
	}
	vals := map[string]bool{}
	allInstrs(h, func(in ssa.Instruction) {
		ret, isR := in.(*ssa.Return)
		if !isR || ex.Index >= len(ret.Results) {
			return
		}
		rv := ret.Results[ex.Index]
		if c, isC := rv.(*ssa.Const); isC && (c.Value == nil || c.Value.ExactString() == `""` || c.Value.ExactString() == "0" || c.Value.ExactString() == "false") {
			return // the zero value beside an error
		}
		vals[resolvedPath(rv)] = true
	})
	if len(vals) != 1 {
		return path(v)
	}
	p := sortedKeys(vals)[0]
	if strings.Contains(p, "phi:") || strings.Contains(p, "?t") || strings.Contains(p, "alloc:") {
		return path(v) // computed inside the helper, not a projection of its arguments
	}
	for k, prm := range h.Params {
		if k < len(call.Call.Args) {
			re := regexp.MustCompile(`(^|[^A-Za-z0-9_.])` + regexp.QuoteMeta(pname(prm)) + `($|[^A-Za-z0-9_])`)
			for i := 0; i < 3 && re.MatchString(p); i++ {
				p = re.ReplaceAllString(p, "${1}"+strings.ReplaceAll(path(call.Call.Args[k]), "$", "$$")+"${2}")
			}
		}
	}
	return p
}

func normKey(v ssa.Value) string {
	p := resolvedPath(v)
	for i := len(substStack) - 1; i >= 0; i-- {
		for name, actual := range substStack[i] {
			re := regexp.MustCompile(`(^|[^A-Za-z0-9_.])` + regexp.QuoteMeta(name) + `($|[^A-Za-z0-9_])`)
			for k := 0; k < 3 && re.MatchString(p); k++ {
				p = re.ReplaceAllString(p, "${1}"+strings.ReplaceAll(actual, "$", "$$")+"${2}")
			}
		}
	}
	p = reParamSub.ReplaceAllString(p, "P*")
	p = reParamK.ReplaceAllString(p, "P$1")
	p = strings.ReplaceAll(p, "getKeyName(P", "keyName(P")
	p = strings.ReplaceAll(p, ")#0", ")")
	p = strings.ReplaceAll(p, "runtime.PlRunInfoField", `"pl_msg"`)
	if c, ok := v.(*ssa.Const); ok && c.Value != nil {
		return c.Value.ExactString()
	}
	if strings.Contains(p, "RunWithTypeInfo(") {
		return "capture-name"
	}
	return p
}

type effectSite struct {
	Kind string // read | write | return | stdout
	Desc string
	Call *ssa.Call
	Fn   *ssa.Function
}

// effectSites lists the point/stdout/register effects and subject reads of a runner, looking one level into
// in-module helpers that are not themselves effect primitives.
func effectSites(t *Tree, f *ssa.Function, depth int) []effectSite {
	var out []effectSite
	kindTag, _ := constInt(t.SSA[pInput].Const("KindPtTag").Value)
	allInstrs(f, func(in ssa.Instruction) {
		call, ok := in.(*ssa.Call)
		if !ok {
			return
		}
		cal := call.Call.StaticCallee()
		if cal == nil {
			return
		}
		a := call.Call.Args
		switch fnName(cal) {
		case "addKey2PtWithVal":
			kind := "field"
			if v, ok := constInt(a[4]); ok && v == kindTag {
				kind = "tag"
			}
			out = append(out, effectSite{"write", "set-" + kind + "(" + normKey(a[1]) + ")", call, f})
		case "deletePtKey":
			out = append(out, effectSite{"write", "delete(" + normKey(a[1]) + ")" + nodeKindGuard(t, call), call, f})
		case "renamePtKey":
			out = append(out, effectSite{"write", "rename(to=" + normKey(a[1]) + ", from=" + normKey(a[2]) + ")", call, f})
		case "setMeasurement":
			out = append(out, effectSite{"write", "measurement", call, f})
		case "setPointTime":
			out = append(out, effectSite{"write", "time", call, f})
		case "ReturnAppend":
			out = append(out, effectSite{"return", "return", call, f})
		case "Printf":
			if cal.Object() != nil && cal.Object().Pkg() != nil && cal.Object().Pkg().Path() == "fmt" {
				out = append(out, effectSite{"stdout", "stdout", call, f})
			}
		case "GetKey":
			if funcIs(cal, pRT, "Task.GetKey") {
				out = append(out, effectSite{"read", "var-first(" + normKey(a[1]) + ")", call, f})
			}
		case "GetKeyConv2Str":
			out = append(out, effectSite{"read", "var-first-str(" + normKey(a[1]) + ")", call, f})
		case "getPtKey":
			out = append(out, effectSite{"read", "point-only(" + normKey(a[1]) + ")", call, f})
		case "RunStmt":
			out = append(out, effectSite{"read", "eval(" + normKey(a[1]) + ")", call, f})
		case "RefRun":
			out = append(out, effectSite{"write", "run-script", call, f})
		case "SetExit":
			out = append(out, effectSite{"write", "exit", call, f})
		default:
			if prims := pointPrimitives(t, cal); len(prims) > 0 {
				// a helper of the builtin package that is one point operation on its (aliased) key parameter —
				// whatever it is called: the helper table above split, merged or renamed
				for _, pr := range prims {
					keyOf := func(i int) string {
						if i < len(a) {
							return normKey(a[i])
						}
						return "?"
					}
					switch pr.method {
					case "Set":
						out = append(out, effectSite{"write", "set-field(" + keyOf(pr.key) + ")", call, f})
					case "SetTag":
						out = append(out, effectSite{"write", "set-tag(" + keyOf(pr.key) + ")", call, f})
					case "Delete":
						out = append(out, effectSite{"write", "delete(" + keyOf(pr.key) + ")" + nodeKindGuard(t, call), call, f})
					case "Rename":
						out = append(out, effectSite{"write", "rename(to=" + keyOf(pr.key) + ", from=" + keyOf(pr.key2) + ")", call, f})
					case "Get":
						out = append(out, effectSite{"read", "point-only(" + keyOf(pr.key) + ")", call, f})
					}
				}
				break
			}
			if depth > 0 && inModule(cal) && cal.Pkg == f.Pkg && cal.Signature.Recv() == nil {
				// the helper's parameters are the caller's arguments
				sub := map[string]string{}
				for k, prm := range cal.Params {
					if k < len(a) {
						sub[pname(prm)] = resolvedPath(a[k])
					}
				}
				substStack = append(substStack, sub)
				inner := effectSites(t, cal, depth-1)
				substStack = substStack[:len(substStack)-1]
				for _, e := range inner {
					// an effect whose key is expressed in the caller's terms needs no "via": it is the caller's effect
					local := false
					for _, prm := range cal.Params {
						if regexp.MustCompile(`(^|[^A-Za-z0-9_.])` + regexp.QuoteMeta(pname(prm)) + `($|[^A-Za-z0-9_])`).MatchString(e.Desc) {
							local = true
						}
					}
					if local || strings.Contains(e.Desc, "phi:") || strings.Contains(e.Desc, "?t") {
						e.Desc = e.Desc + " via " + cal.Name()
					}
					out = append(out, e)
				}
			}
		}
	})
	return out
}

func effectSignature(t *Tree, f *ssa.Function) string {
	set := map[string]bool{}
	for _, e := range effectSites(t, f, 1) {
		d := e.Desc
		if i := strings.Index(d, " via "); i >= 0 {
			// helper-internal argument names are meaningless to the caller: keep the primitive and the helper
			arg := ""
			if j := strings.Index(d, "("); j >= 0 && j < i {
				arg = d[j+1 : strings.LastIndex(d[:i], ")")]
			}
			if !strings.Contains(e.Desc[:i], "(") || strings.HasPrefix(arg, `"`) {
				d = e.Desc
			} else {
				d = d[:strings.Index(d, "(")+1] + "…) via" + d[i+4:]
			}
		}
		set[e.Kind+" "+d] = true
	}
	var ks []string
	for k := range set {
		ks = append(ks, k)
	}
	sort.Strings(ks)
	return strings.Join(ks, "; ")
}

// nodeKindGuard: the argument node kinds under which this effect happens, when the call is dominated by (a
// disjunction of) `funcExpr.Param[k].NodeType == K` tests: " when P0 is AttrExpr|Identifier".
func nodeKindGuard(t *Tree, call *ssa.Call) string {
	k2s, _ := kindTable(t)
	type pk struct {
		param string
		kind  string
	}
	testEq := func(cond ssa.Value) (pk, bool) {
		bo, ok := cond.(*ssa.BinOp)
		if !ok || bo.Op.String() != "==" {
			return pk{}, false
		}
		p := path(bo.X)
		if !strings.HasSuffix(p, ".NodeType") {
			return pk{}, false
		}
		k, isC := constInt(bo.Y)
		if !isC {
			return pk{}, false
		}
		m := reParamK.FindStringSubmatch(p)
		if m == nil {
			return pk{}, false
		}
		return pk{"P" + m[1], k2s[k]}, true
	}
	byParam := map[string]map[string]bool{}
	add := func(x pk) {
		if byParam[x.param] == nil {
			byParam[x.param] = map[string]bool{}
		}
		byParam[x.param][x.kind] = true
	}
	test := testEq
	// single dominating edges
	for _, ec := range controlling(call.Block()) {
		if x, ok := test(ec.Cond); ok && ec.Pol {
			add(x)
		}
		// the false edge of `kind != K`: a guard clause that returned on the true edge
		if bo, isB := ec.Cond.(*ssa.BinOp); isB && bo.Op == token.NEQ && !ec.Pol {
			eq := *bo
			eq.Op = token.EQL
			if x, ok := testEq(&eq); ok {
				add(x)
			}
		}
	}
	// a multi-case arm: the nearest dominating block all of whose predecessors are true edges of such tests
	for b := call.Block(); b != nil; b = b.Idom() {
		if len(b.Preds) < 2 {
			continue
		}
		all := true
		var xs []pk
		for _, p := range b.Preds {
			iff, ok := p.Instrs[len(p.Instrs)-1].(*ssa.If)
			if !ok || p.Succs[0] != b {
				all = false
				break
			}
			x, ok := test(iff.Cond)
			if !ok {
				all = false
				break
			}
			xs = append(xs, x)
		}
		if all {
			for _, x := range xs {
				add(x)
			}
			break
		}
	}
	var parts []string
	for _, p := range sortedKeys(byParam) {
		parts = append(parts, p+" is "+strings.Join(sortedKeys(byParam[p]), "|"))
	}
	if len(parts) == 0 {
		return ""
	}
	return " when " + strings.Join(parts, " and ")
}

var _ = fmt.Sprint

type pointPrim struct {
	method    string
	key, key2 int // parameter positions of the key(s)
}

// pointPrimitives: h is a function of the builtin package (no receiver) whose only point operations are calls of
// (*input.Point).Set / SetTag / Delete / Rename / Get on the point obtained from its first parameter, each with a key
// that is one of h's parameters after the `_` alias was applied (a phi of the parameter and the origin key).
func pointPrimitives(t *Tree, h *ssa.Function) []pointPrim {
	if h == nil || !inModule(h) || h.Pkg == nil || h.Pkg.Pkg.Path() != pFuncs || h.Signature.Recv() != nil || len(h.Params) < 2 {
		return nil
	}
	aliased := func(v ssa.Value) int {
		phi, ok := v.(*ssa.Phi)
		if !ok {
			return -1
		}
		idx, other := -1, 0
		for _, e := range phi.Edges {
			if prm, isP := e.(*ssa.Parameter); isP {
				for k, q := range h.Params {
					if q == prm {
						if idx >= 0 && idx != k {
							return -1
						}
						idx = k
					}
				}
				continue
			}
			if strings.HasSuffix(path(e), "Originkey") || strings.Contains(path(e), "message") {
				other++
				continue
			}
			if c, isC := e.(*ssa.Const); isC && c.Value != nil {
				other++
				continue
			}
			return -1
		}
		if other == 0 {
			return -1
		}
		return idx
	}
	var out []pointPrim
	bad := false
	allInstrs(h, func(in ssa.Instruction) {
		call, ok := in.(*ssa.Call)
		if !ok {
			return
		}
		cal := call.Call.StaticCallee()
		if cal == nil || cal.Signature.Recv() == nil || namedOf(cal.Signature.Recv().Type()) != "input.Point" {
			return
		}
		a := call.Call.Args
		switch cal.Name() {
		case "Set", "SetTag", "Delete", "Get":
			if len(a) < 2 || aliased(a[1]) < 0 {
				bad = true
				return
			}
			out = append(out, pointPrim{method: cal.Name(), key: aliased(a[1])})
		case "Rename":
			if len(a) < 3 || aliased(a[1]) < 0 || aliased(a[2]) < 0 {
				bad = true
				return
			}
			out = append(out, pointPrim{method: "Rename", key: aliased(a[1]), key2: aliased(a[2])})
		default:
			bad = true
		}
	})
	if bad {
		return nil
	}
	return out
}
