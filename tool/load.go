package main

import (
	"fmt"
	"go/ast"
	"go/token"
	"go/types"
	"os"
	"path/filepath"
	"sort"
	"strings"

	"golang.org/x/tools/go/packages"
	"golang.org/x/tools/go/ssa"
	"golang.org/x/tools/go/ssa/ssautil"
)

const mod = "github.com/GuanceCloud/platypus"

// Package path suffixes used all over the rules.
const (
	pAst    = mod + "/pkg/ast"
	pParser = mod + "/pkg/parser"
	pRT     = mod + "/pkg/engine/runtime"
	pRT2    = mod + "/pkg/engine/runtimev2"
	pEngine = mod + "/pkg/engine"
	pFuncs  = mod + "/pkg/inimpl/guancecloud/funcs"
	pInput  = mod + "/pkg/inimpl/guancecloud/input"
	pErr    = mod + "/pkg/errchain"
	pToken  = mod + "/pkg/token"
	pRun    = mod + "/internal/cmd/platypus/run"
)

// Tree is the loaded, type-checked, SSA-built working tree of /repo.
type Tree struct {
	Dir     string
	Overlay map[string][]byte
	GOARCH  string
	Pkgs    []*packages.Package
	ByPath  map[string]*packages.Package
	Prog    *ssa.Program
	SSA     map[string]*ssa.Package
	Fset    *token.FileSet
	nfuncs  int
}

func repoDir() string {
	if d := os.Getenv("PLVERIF_REPO"); d != "" {
		return d
	}
	return "/repo"
}

// LoadTree loads ./... of the repository with syntax, types and SSA for the
// module's own packages. Any load or type error is a hard failure: a tree that
// does not type-check makes every property undecided.
func LoadTree(dir string, overlay map[string][]byte, goarch string) (*Tree, error) {
	env := append(os.Environ(), "GOFLAGS=-mod=mod", "GOPROXY=off", "GOSUMDB=off", "GOWORK=off", "GOTOOLCHAIN=local")
	if goarch != "" {
		env = append(env, "GOARCH="+goarch)
	}
	cfg := &packages.Config{
		Mode:    packages.LoadSyntax,
		Dir:     dir,
		Env:     env,
		Overlay: overlay,
		Tests:   false,
	}
	pkgs, err := packages.Load(cfg, "./...")
	if err != nil {
		return nil, fmt.Errorf("packages.Load: %w", err)
	}
	if len(pkgs) == 0 {
		return nil, fmt.Errorf("no packages loaded from %s", dir)
	}
	t := &Tree{Dir: dir, Overlay: overlay, GOARCH: goarch, Pkgs: pkgs, ByPath: map[string]*packages.Package{}, SSA: map[string]*ssa.Package{}}
	var errs []string
	for _, p := range pkgs {
		t.ByPath[p.PkgPath] = p
		for _, e := range p.Errors {
			errs = append(errs, e.Error())
		}
	}
	if len(errs) > 0 {
		sort.Strings(errs)
		if len(errs) > 5 {
			errs = errs[:5]
		}
		return nil, fmt.Errorf("tree does not type-check (%d packages): %s", len(pkgs), strings.Join(errs, "; "))
	}
	prog, _ := ssautil.Packages(pkgs, ssa.InstantiateGenerics)
	prog.Build()
	t.Prog = prog
	t.Fset = prog.Fset
	for _, p := range prog.AllPackages() {
		if strings.HasPrefix(p.Pkg.Path(), mod) {
			t.SSA[p.Pkg.Path()] = p
		}
	}
	for _, need := range []string{pAst, pParser, pRT, pRT2, pEngine, pFuncs, pInput, pErr, pToken, pRun} {
		if t.SSA[need] == nil {
			return nil, fmt.Errorf("unresolved anchor: package %s not loaded", need)
		}
	}
	return t, nil
}

// Pos renders a position relative to the repository root.
func (t *Tree) Pos(p token.Pos) string {
	if !p.IsValid() {
		return "-"
	}
	q := t.Fset.Position(p)
	rel, err := filepath.Rel(t.Dir, q.Filename)
	if err != nil {
		rel = q.Filename
	}
	return fmt.Sprintf("%s:%d", rel, q.Line)
}

// Func resolves a package-level function; nil if absent.
func (t *Tree) Func(pkg, name string) *ssa.Function {
	p := t.SSA[pkg]
	if p == nil {
		return nil
	}
	if f := p.Func(name); f != nil {
		return f
	}
	return renamedFunc(t, pkg, "", name) // renamed, moved, or turned into a method (anchors.go)
}

// Method resolves method name on *T or T declared in pkg.
func (t *Tree) Method(pkg, typ, name string) *ssa.Function {
	p := t.SSA[pkg]
	if p == nil {
		return nil
	}
	m := p.Type(typ)
	if m == nil {
		return nil
	}
	for _, ty := range []types.Type{types.NewPointer(m.Type()), m.Type()} {
		ms := t.Prog.MethodSets.MethodSet(ty)
		for i := 0; i < ms.Len(); i++ {
			if ms.At(i).Obj().Name() == name {
				return t.Prog.MethodValue(ms.At(i))
			}
		}
	}
	return renamedFunc(t, pkg, typ, name) // renamed, or turned into a plain function (anchors.go)
}

// Methods lists all methods (pointer method set) of a named type.
func (t *Tree) Methods(pkg, typ string) []*ssa.Function {
	p := t.SSA[pkg]
	if p == nil || p.Type(typ) == nil {
		return nil
	}
	var out []*ssa.Function
	ms := t.Prog.MethodSets.MethodSet(types.NewPointer(p.Type(typ).Type()))
	for i := 0; i < ms.Len(); i++ {
		if f := t.Prog.MethodValue(ms.At(i)); f != nil {
			out = append(out, f)
		}
	}
	return out
}

// NamedStruct returns the struct type of a named type.
func (t *Tree) NamedStruct(pkg, typ string) (*types.Named, *types.Struct) {
	p := t.ByPath[pkg]
	if p == nil {
		return nil, nil
	}
	o := p.Types.Scope().Lookup(typ)
	if o == nil {
		return nil, nil
	}
	n, _ := o.Type().(*types.Named)
	if n == nil {
		return nil, nil
	}
	s, _ := n.Underlying().(*types.Struct)
	return n, s
}

// PkgFuncs lists every function and method with a body declared in pkg (incl. anon funcs).
func (t *Tree) PkgFuncs(pkg string) []*ssa.Function {
	p := t.SSA[pkg]
	if p == nil {
		return nil
	}
	seen := map[*ssa.Function]bool{}
	var out []*ssa.Function
	var add func(f *ssa.Function)
	add = func(f *ssa.Function) {
		if f == nil || seen[f] || len(f.Blocks) == 0 {
			return
		}
		seen[f] = true
		out = append(out, f)
		for _, a := range f.AnonFuncs {
			add(a)
		}
	}
	for _, m := range p.Members {
		switch m := m.(type) {
		case *ssa.Function:
			add(m)
		case *ssa.Type:
			for _, ty := range []types.Type{m.Type(), types.NewPointer(m.Type())} {
				ms := t.Prog.MethodSets.MethodSet(ty)
				for i := 0; i < ms.Len(); i++ {
					f := t.Prog.MethodValue(ms.At(i))
					if f != nil && f.Pkg == p && f.Synthetic == "" {
						add(f)
					}
				}
			}
		}
	}
	sort.Slice(out, func(i, j int) bool { return out[i].String() < out[j].String() })
	return out
}

// FuncDecl finds the syntax of a function declared in pkg (method receiver type name optional).
func (t *Tree) FuncDecl(pkg, recv, name string) *ast.FuncDecl {
	p := t.ByPath[pkg]
	if p == nil {
		return nil
	}
	for _, f := range p.Syntax {
		for _, d := range f.Decls {
			fd, ok := d.(*ast.FuncDecl)
			if !ok || fd.Name.Name != name {
				continue
			}
			r := ""
			if fd.Recv != nil && len(fd.Recv.List) == 1 {
				e := fd.Recv.List[0].Type
				if s, ok := e.(*ast.StarExpr); ok {
					e = s.X
				}
				if id, ok := e.(*ast.Ident); ok {
					r = id.Name
				}
			}
			if r == recv {
				return fd
			}
		}
	}
	return nil
}

func inModule(f *ssa.Function) bool {
	if f == nil || len(f.Blocks) == 0 {
		return false
	}
	pk := f.Pkg
	if pk == nil && f.Origin() != nil {
		pk = f.Origin().Pkg // an instance of a generic function of the module
	}
	return pk != nil && strings.HasPrefix(pk.Pkg.Path(), mod)
}

func relName(f *ssa.Function) string {
	if f == nil {
		return "<nil>"
	}
	s := f.String()
	s = strings.ReplaceAll(s, mod+"/", "")
	return s
}

// pkgOf: the package a function belongs to — for an instance of a generic function, the package of the generic.
func pkgOf(f *ssa.Function) *ssa.Package {
	if f == nil {
		return nil
	}
	if f.Pkg == nil && f.Origin() != nil {
		return f.Origin().Pkg
	}
	return f.Pkg
}
